#!/usr/bin/env python3
"""gen.py <repo> <coq/Gen dir> — regenerate Stmts.v, FsSites.v, Consts.v, Scalar.v
from the Go sources of <repo> (DESIGN §4.3).

The translators are the small Go program next to this file (go/ast, standard
library only; it parses, it does not type-check, so the repository's
dependencies are not needed).  It is rebuilt when its sources change.  Exit
status non-zero = the source is outside the supported subset (the message names
the function or site); the checks report that as a broken obligation.
Generated files are rewritten only when their content changes."""
import fcntl
import hashlib
import os
import subprocess
import sys

HERE = os.path.dirname(os.path.abspath(__file__))
VERIF = os.path.dirname(os.path.dirname(HERE))
BIN_DIR = os.path.join(VERIF, "work", "bin")


def sources_digest():
    h = hashlib.sha256()
    for n in sorted(os.listdir(HERE)):
        if n.endswith(".go") or n == "go.mod":
            h.update(n.encode())
            h.update(open(os.path.join(HERE, n), "rb").read())
    return h.hexdigest()[:16]


def build():
    os.makedirs(BIN_DIR, exist_ok=True)
    binp = os.path.join(BIN_DIR, "verifgen-" + sources_digest())
    if os.path.exists(binp):
        return binp
    with open(os.path.join(BIN_DIR, "verifgen.lock"), "w") as lk:
        fcntl.flock(lk, fcntl.LOCK_EX)
        if os.path.exists(binp):
            return binp
        env = dict(os.environ, GOFLAGS="-mod=mod", GOPROXY="off", CGO_ENABLED="0")
        tmp = binp + ".tmp%d" % os.getpid()
        p = subprocess.run(["go", "build", "-o", tmp, "."], cwd=HERE, env=env,
                           stdout=subprocess.PIPE, stderr=subprocess.STDOUT, timeout=600)
        if p.returncode != 0:
            sys.stderr.write("gen.py: cannot build the translators:\n" + p.stdout.decode("utf-8", "replace"))
            sys.exit(2)
        os.rename(tmp, binp)
        # drop binaries of older source versions
        for n in os.listdir(BIN_DIR):
            if n.startswith("verifgen-") and os.path.join(BIN_DIR, n) != binp and ".tmp" not in n:
                try:
                    os.remove(os.path.join(BIN_DIR, n))
                except OSError:
                    pass
    return binp


def main():
    if len(sys.argv) != 3:
        sys.stderr.write(__doc__)
        return 2
    repo, out = sys.argv[1], sys.argv[2]
    binp = build()
    os.makedirs(out, exist_ok=True)
    # one generator at a time per output directory (checks run concurrently)
    with open(os.path.join(BIN_DIR, "verifgen.run.lock"), "w") as lk:
        fcntl.flock(lk, fcntl.LOCK_EX)
        p = subprocess.run([binp, repo, out], stdout=subprocess.PIPE, stderr=subprocess.STDOUT, timeout=240)
    sys.stdout.write(p.stdout.decode("utf-8", "replace"))
    return p.returncode


if __name__ == "__main__":
    sys.exit(main())
