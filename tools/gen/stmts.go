package main

import (
	"go/ast"
	"go/token"
	"sort"
	"strconv"
	"strings"
)

const holeMarker = "{?}"

// ---- constant strings reaching an expression ---------------------------------

type strCtx struct {
	w        *World
	external map[string]bool // "Recv.Func.param" of exported functions whose parameter reaches a hole
	seen     map[string]bool
}

func dyn(e ast.Expr) string { return "<dyn:" + exprText(e) + ">" }

// evalStr returns the set of constant strings the expression can take, as far
// as the syntax shows; anything else yields one "<dyn:...>" alternative (which no
// statement class recognises).
func (c *strCtx) evalStr(e ast.Expr, fi *FuncInfo, depth int) []string {
	if depth > 8 {
		return []string{dyn(e)}
	}
	switch t := e.(type) {
	case *ast.ParenExpr:
		return c.evalStr(t.X, fi, depth)
	case *ast.BasicLit:
		if t.Kind == token.STRING {
			s, err := strconv.Unquote(t.Value)
			if err == nil {
				return []string{s}
			}
		}
		return []string{dyn(e)}
	case *ast.BinaryExpr:
		if t.Op != token.ADD {
			return []string{dyn(e)}
		}
		var out []string
		for _, a := range c.evalStr(t.X, fi, depth) {
			for _, b := range c.evalStr(t.Y, fi, depth) {
				if strings.HasPrefix(a, "<dyn:") || strings.HasPrefix(b, "<dyn:") {
					out = append(out, dyn(e))
				} else {
					out = append(out, a+b)
				}
			}
		}
		return uniq(out)
	case *ast.SelectorExpr:
		// pkg.Const
		if x, ok := t.X.(*ast.Ident); ok {
			if f := fi.pkg.fileOf(e); f != nil {
				if path, ok := fi.pkg.imports[f][x.Name]; ok {
					for _, rel := range c.w.order {
						p := c.w.pkgs[rel]
						if (rel == "" && strings.HasSuffix(path, "/litestream")) || (rel != "" && strings.HasSuffix(path, "/"+rel)) {
							if cd, ok := p.consts[t.Sel.Name]; ok && cd.expr != nil {
								return c.evalStr(cd.expr, &FuncInfo{pkg: p, decl: &ast.FuncDecl{Name: ast.NewIdent("<const>"), Type: &ast.FuncType{Params: &ast.FieldList{}}}}, depth+1)
							}
						}
					}
				}
			}
		}
		return []string{dyn(e)}
	case *ast.Ident:
		if i := paramIndex(fi, t.Name); i >= 0 {
			key := fi.qual() + "#" + t.Name
			if c.seen[key] {
				return nil
			}
			c.seen[key] = true
			defer delete(c.seen, key)
			var out []string
			for _, cs := range c.w.callersOf(fi) {
				if i < len(cs.call.Args) {
					out = append(out, c.evalStr(cs.call.Args[i], cs.fn, depth+1)...)
				}
			}
			if ast.IsExported(fi.decl.Name.Name) {
				c.external[fi.qual()+"."+t.Name] = true
			}
			return uniq(out)
		}
		if rhs, declared, ok := localAssignments(fi, t.Name); declared {
			if !ok {
				return []string{dyn(e)}
			}
			var out []string
			for _, r := range rhs {
				out = append(out, c.evalStr(r, fi, depth+1)...)
			}
			return uniq(out)
		}
		if cd, ok := fi.pkg.consts[t.Name]; ok && cd.expr != nil {
			return c.evalStr(cd.expr, fi, depth+1)
		}
		return []string{dyn(e)}
	}
	return []string{dyn(e)}
}

func uniq(a []string) []string {
	m := map[string]bool{}
	var out []string
	for _, s := range a {
		if !m[s] {
			m[s] = true
			out = append(out, s)
		}
	}
	sort.Strings(out)
	return out
}

// flatten a concatenation into its parts, looking through a local that is
// assigned exactly once.
func flatten(e ast.Expr, fi *FuncInfo, depth int) []ast.Expr {
	switch t := e.(type) {
	case *ast.ParenExpr:
		return flatten(t.X, fi, depth)
	case *ast.BinaryExpr:
		if t.Op == token.ADD {
			return append(flatten(t.X, fi, depth), flatten(t.Y, fi, depth)...)
		}
	case *ast.Ident:
		if depth < 4 && paramIndex(fi, t.Name) < 0 {
			if rhs, declared, ok := localAssignments(fi, t.Name); declared && ok && len(rhs) == 1 {
				if _, isBin := rhs[0].(*ast.BinaryExpr); isBin {
					return flatten(rhs[0], fi, depth+1)
				}
			}
		}
	}
	return []ast.Expr{e}
}

// ---- statement sites -------------------------------------------------------------

type stmtRec struct {
	fn, site, text, target string
	holes                  []string
	hasHole                bool
	external               bool // the hole is (also) fed by a parameter of an exported function
}

type dsnRec struct{ fn, site, text, class string }

var sqlMethods = map[string]int{ // method name -> index of the SQL argument
	"ExecContext": 1, "QueryRowContext": 1, "QueryContext": 1, "PrepareContext": 1,
	"Exec": 0, "QueryRow": 0, "Query": 0, "Prepare": 0,
	"BeginTx": -1, "Begin": -2,
}

func collectStmts(w *World) ([]stmtRec, []dsnRec, []string) {
	c := &strCtx{w: w, external: map[string]bool{}, seen: map[string]bool{}}
	var out []stmtRec
	var dsns []dsnRec
	for _, rel := range []string{"", "cmd/litestream"} {
		p := w.pkgs[rel]
		if p == nil {
			die("package %q not found under the repo", rel)
		}
		for _, fi := range p.funcs {
			if fi.decl.Body == nil {
				continue
			}
			fi := fi
			ast.Inspect(fi.decl.Body, func(n ast.Node) bool {
				call, ok := n.(*ast.CallExpr)
				if !ok {
					return true
				}
				sel, ok := call.Fun.(*ast.SelectorExpr)
				if !ok {
					return true
				}
				// sql.Open(driver, dsn)
				if x, isId := sel.X.(*ast.Ident); isId && x.Name == "sql" && sel.Sel.Name == "Open" && len(call.Args) == 2 {
					dsns = append(dsns, dsnOf(w, fi, call))
					return true
				}
				idx, ok := sqlMethods[sel.Sel.Name]
				if !ok {
					return true
				}
				if idx == -2 {
					if len(call.Args) != 0 || !looksLikeHandle(sel.X, fi, w) {
						return true
					}
					out = append(out, stmtRec{fn: fi.qual(), site: site(fi, call), text: "<Begin>", target: targetOf(w, sel.X, fi, 0)})
					return true
				}
				if idx == -1 {
					if len(call.Args) != 2 {
						return true
					}
					opt := "opts"
					if id, isId := call.Args[1].(*ast.Ident); isId && id.Name == "nil" {
						opt = "nil"
					}
					out = append(out, stmtRec{fn: fi.qual(), site: site(fi, call), text: "<BeginTx " + opt + ">", target: targetOf(w, sel.X, fi, 0)})
					return true
				}
				if len(call.Args) <= idx {
					return true // u.Query() of net/url and the like
				}
				rec := stmtRec{fn: fi.qual(), site: site(fi, call), target: targetOf(w, sel.X, fi, 0)}
				parts := flatten(call.Args[idx], fi, 0)
				nExt := len(c.external)
				var sb strings.Builder
				for _, part := range parts {
					alts := c.evalStr(part, fi, 0)
					if len(alts) == 1 && !strings.HasPrefix(alts[0], "<dyn:") {
						if strings.Contains(alts[0], holeMarker) {
							die("%s: SQL text contains the hole marker %s", rec.site, holeMarker)
						}
						sb.WriteString(alts[0])
						continue
					}
					if rec.hasHole {
						die("%s (%s): SQL text built from more than one non-constant part; outside the supported subset", rec.site, rec.fn)
					}
					rec.hasHole = true
					rec.holes = alts
					sb.WriteString(holeMarker)
				}
				rec.text = sb.String()
				rec.external = len(c.external) > nExt || (rec.hasHole && feedsFromExported(c, call.Args[idx], fi))
				out = append(out, rec)
				return true
			})
		}
	}
	var ext []string
	for k := range c.external {
		ext = append(ext, k)
	}
	sort.Strings(ext)
	return out, dsns, ext
}

// feedsFromExported re-evaluates the argument with a fresh context and reports
// whether an exported function's parameter was met on the way (the shared
// context may have recorded the same parameter for an earlier site already).
func feedsFromExported(c *strCtx, e ast.Expr, fi *FuncInfo) bool {
	c2 := &strCtx{w: c.w, external: map[string]bool{}, seen: map[string]bool{}}
	for _, part := range flatten(e, fi, 0) {
		c2.evalStr(part, fi, 0)
	}
	return len(c2.external) > 0
}

// looksLikeHandle: x.Begin() is only a statement site when x is a database handle.
func looksLikeHandle(x ast.Expr, fi *FuncInfo, w *World) bool {
	t := targetOf(w, x, fi, 0)
	return t == "source" || t == "restored" || strings.HasPrefix(t, "opened")
}

func dsnOf(w *World, fi *FuncInfo, call *ast.CallExpr) dsnRec {
	r := dsnRec{fn: fi.qual(), site: site(fi, call)}
	arg := call.Args[1]
	// look through a local assigned once
	if id, ok := arg.(*ast.Ident); ok && paramIndex(fi, id.Name) < 0 {
		if rhs, declared, ok := localAssignments(fi, id.Name); declared && ok && len(rhs) == 1 {
			arg = rhs[0]
		}
	}
	if c, ok := arg.(*ast.CallExpr); ok && exprText(c.Fun) == "fmt.Sprintf" && len(c.Args) >= 2 {
		if lit, ok := c.Args[0].(*ast.BasicLit); ok && lit.Kind == token.STRING {
			r.text, _ = strconv.Unquote(lit.Value)
			r.class = strings.Join(classifyPath(w, c.Args[1], fi, 0, map[string]bool{}), "|")
			return r
		}
		r.text, r.class = dyn(arg), "other"
		return r
	}
	r.text = "%s"
	r.class = strings.Join(classifyPath(w, arg, fi, 0, map[string]bool{}), "|")
	return r
}

// targetOf: which database a handle expression refers to, syntactically:
// "source" (DB.db of the replicated database), "restored" (opened in the same
// function from an output path), "opened(<class>)", "param", "unknown".
func targetOf(w *World, x ast.Expr, fi *FuncInfo, depth int) string {
	if depth > 4 {
		return "unknown"
	}
	switch t := x.(type) {
	case *ast.ParenExpr:
		return targetOf(w, t.X, fi, depth)
	case *ast.SelectorExpr:
		if (t.Sel.Name == "db" || t.Sel.Name == "rtx") && recvIsDB(t.X, fi) {
			return "source"
		}
		return "unknown"
	case *ast.CallExpr:
		if sel, ok := t.Fun.(*ast.SelectorExpr); ok {
			switch sel.Sel.Name {
			case "BeginTx", "Begin", "Conn":
				return targetOf(w, sel.X, fi, depth+1)
			case "Open":
				if id, ok := sel.X.(*ast.Ident); ok && id.Name == "sql" && len(t.Args) == 2 {
					d := dsnOf(w, fi, t)
					return targetOfClass(d.class)
				}
			case "SQLDB":
				return "source"
			}
		}
		return "unknown"
	case *ast.Ident:
		if paramIndex(fi, t.Name) >= 0 {
			return "param"
		}
		rhs, declared, ok := localAssignments(fi, t.Name)
		if !declared || !ok || len(rhs) == 0 {
			return "unknown"
		}
		res := ""
		for _, r := range rhs {
			if id, isId := r.(*ast.Ident); isId && id.Name == "nil" {
				continue
			}
			tt := targetOf(w, r, fi, depth+1)
			if res == "" {
				res = tt
			} else if res != tt {
				return "unknown"
			}
		}
		if res == "" {
			return "unknown"
		}
		return res
	}
	return "unknown"
}

func recvIsDB(x ast.Expr, fi *FuncInfo) bool {
	id, ok := x.(*ast.Ident)
	if !ok {
		return false
	}
	if _, declared, _ := localAssignments(fi, id.Name); declared && id.Name != fi.recvName {
		return false
	}
	return exprTypeName(x, fi) == "DB"
}

func targetOfClass(class string) string {
	if class == "" {
		return "unknown"
	}
	all := true
	for _, c := range strings.Split(class, "|") {
		if c == "db.path" {
			return "source"
		}
		if !isOutputClass(c) {
			all = false
		}
	}
	if all {
		return "restored"
	}
	return "opened(" + class + ")"
}

func isOutputClass(c string) bool {
	return c == "output" || c == "tmp(output)"
}
