// Package main: the source translators of /verif (DESIGN §4.3).
//
//	verifgen <repo> <coq/Gen dir>
//
// reads the Go sources of /repo (syntax only, go/ast; no type checker, so it
// does not need the dependencies to compile) and writes Stmts.v, FsSites.v,
// Consts.v and Scalar.v.  A file is rewritten only when its content changes.
// Anything outside the supported subset makes the program exit non-zero with
// a message naming the function / site.
package main

import (
	"fmt"
	"go/ast"
	"go/parser"
	"go/token"
	"os"
	"path/filepath"
	"sort"
	"strconv"
	"strings"
)

var fset = token.NewFileSet()

type constDef struct {
	expr ast.Expr // nil: implicit repetition without a previous expression
	typ  ast.Expr
	iota int
	pkg  *Pkg
}

type FuncInfo struct {
	pkg      *Pkg
	decl     *ast.FuncDecl
	recvType string
	recvName string
	file     string // path relative to the repo (or module) root
}

func (f *FuncInfo) qual() string {
	if f.recvType != "" {
		return f.recvType + "." + f.decl.Name.Name
	}
	return f.decl.Name.Name
}

type Pkg struct {
	rel     string // "" root, "cmd/litestream", ...
	name    string
	root    string
	files   []*ast.File
	fnames  []string
	funcs   []*FuncInfo
	consts  map[string]*constDef
	vars    map[string]bool
	structs map[string]*ast.StructType
	named   map[string]ast.Expr // type X <non-struct underlying>
	imports map[*ast.File]map[string]string
}

func die(format string, a ...any) {
	fmt.Fprintf(os.Stderr, "verifgen: "+format+"\n", a...)
	os.Exit(1)
}

func baseType(e ast.Expr) string {
	switch t := e.(type) {
	case *ast.StarExpr:
		return baseType(t.X)
	case *ast.Ident:
		return t.Name
	case *ast.SelectorExpr:
		return t.Sel.Name
	case *ast.IndexExpr:
		return baseType(t.X)
	}
	return "?"
}

func typeText(e ast.Expr) string {
	switch t := e.(type) {
	case *ast.StarExpr:
		return typeText(t.X)
	case *ast.Ident:
		return t.Name
	case *ast.SelectorExpr:
		if x, ok := t.X.(*ast.Ident); ok {
			return x.Name + "." + t.Sel.Name
		}
	}
	return "?"
}

// loadPkg parses the non-test .go files of one directory (all build tags).
func loadPkg(root, rel string) *Pkg {
	dir := filepath.Join(root, rel)
	ents, err := os.ReadDir(dir)
	if err != nil {
		return nil
	}
	p := &Pkg{rel: rel, root: root, consts: map[string]*constDef{}, vars: map[string]bool{}, structs: map[string]*ast.StructType{},
		named: map[string]ast.Expr{}, imports: map[*ast.File]map[string]string{}}
	var names []string
	for _, e := range ents {
		n := e.Name()
		if e.IsDir() || !strings.HasSuffix(n, ".go") || strings.HasSuffix(n, "_test.go") {
			continue
		}
		names = append(names, n)
	}
	sort.Strings(names)
	for _, n := range names {
		f, err := parser.ParseFile(fset, filepath.Join(dir, n), nil, parser.SkipObjectResolution|parser.ParseComments)
		if err != nil {
			die("cannot parse %s: %v", filepath.Join(dir, n), err)
		}
		if verifOnly(f) {
			continue // harness hook file (//go:build verif): not part of the shipped program
		}
		if p.name == "" || p.name == "main" {
			p.name = f.Name.Name
		}
		p.files = append(p.files, f)
		relf := filepath.ToSlash(filepath.Join(rel, n))
		p.fnames = append(p.fnames, relf)
		imps := map[string]string{}
		for _, im := range f.Imports {
			path, _ := strconv.Unquote(im.Path.Value)
			local := path[strings.LastIndex(path, "/")+1:]
			if im.Name != nil {
				local = im.Name.Name
			}
			imps[local] = path
		}
		p.imports[f] = imps
		for _, d := range f.Decls {
			switch d := d.(type) {
			case *ast.FuncDecl:
				fi := &FuncInfo{pkg: p, decl: d, file: relf}
				if d.Recv != nil && len(d.Recv.List) == 1 {
					fi.recvType = baseType(d.Recv.List[0].Type)
					if len(d.Recv.List[0].Names) == 1 {
						fi.recvName = d.Recv.List[0].Names[0].Name
					}
				}
				p.funcs = append(p.funcs, fi)
			case *ast.GenDecl:
				switch d.Tok {
				case token.CONST:
					var last *constDef
					for i, s := range d.Specs {
						vs := s.(*ast.ValueSpec)
						for j, nm := range vs.Names {
							cd := &constDef{iota: i, pkg: p, typ: vs.Type}
							if j < len(vs.Values) {
								cd.expr = vs.Values[j]
								if cd.typ == nil {
									cd.typ = nil
								}
							} else if last != nil {
								cd.expr, cd.typ = last.expr, last.typ
							}
							if j == 0 {
								last = cd
							}
							p.consts[nm.Name] = cd
						}
					}
				case token.VAR:
					for _, s := range d.Specs {
						for _, nm := range s.(*ast.ValueSpec).Names {
							p.vars[nm.Name] = true
						}
					}
				case token.TYPE:
					for _, s := range d.Specs {
						ts := s.(*ast.TypeSpec)
						if st, ok := ts.Type.(*ast.StructType); ok {
							p.structs[ts.Name.Name] = st
						} else {
							p.named[ts.Name.Name] = ts.Type
						}
					}
				}
			}
		}
	}
	if len(p.files) == 0 {
		return nil
	}
	return p
}

// verifOnly: the file's build constraint requires the verif tag (export_verif_*.go hook files).
func verifOnly(f *ast.File) bool {
	for _, cg := range f.Comments {
		if cg.Pos() >= f.Package {
			break
		}
		for _, c := range cg.List {
			if strings.HasPrefix(c.Text, "//go:build") {
				for _, tok := range strings.FieldsFunc(c.Text[len("//go:build"):], func(r rune) bool { return r == ' ' || r == '(' || r == ')' || r == '&' || r == '|' }) {
					if tok == "verif" {
						return true
					}
				}
			}
		}
	}
	return false
}

// World: every package of the repo that can contain a call reaching a scanned site.
type World struct {
	repo  string
	pkgs  map[string]*Pkg // by rel
	order []string
	ltx   *Pkg
	calls map[string][]*callSite // by callee name (last identifier)
	// function-valued fields assigned a package function: field name -> function name
	alias map[string][]string
}

type callSite struct {
	fn   *FuncInfo
	call *ast.CallExpr
}

func loadWorld(repo string) *World {
	w := &World{repo: repo, pkgs: map[string]*Pkg{}, calls: map[string][]*callSite{}, alias: map[string][]string{}}
	skip := map[string]bool{"_examples": true, "tests": true, "testdata": true, "docs": true, "etc": true, "grafana": true,
		"packages": true, "scripts": true, "skills": true, "src": true}
	filepath.Walk(repo, func(path string, info os.FileInfo, err error) error {
		if err != nil || !info.IsDir() {
			return nil
		}
		rel, _ := filepath.Rel(repo, path)
		rel = filepath.ToSlash(rel)
		if rel == "." {
			rel = ""
		}
		base := filepath.Base(path)
		if rel != "" && (strings.HasPrefix(base, ".") || strings.HasPrefix(base, "_") || skip[rel] || base == "testdata" || base == "testingutil" ||
			rel == "cmd/litestream-test") {
			return filepath.SkipDir
		}
		if p := loadPkg(repo, rel); p != nil {
			w.pkgs[rel] = p
			w.order = append(w.order, rel)
		}
		return nil
	})
	sort.Strings(w.order)
	for _, rel := range w.order {
		p := w.pkgs[rel]
		for _, fi := range p.funcs {
			if fi.decl.Body == nil {
				continue
			}
			fi := fi
			ast.Inspect(fi.decl.Body, func(n ast.Node) bool {
				switch n := n.(type) {
				case *ast.CallExpr:
					if nm := calleeName(n); nm != "" {
						w.calls[nm] = append(w.calls[nm], &callSite{fn: fi, call: n})
					}
				case *ast.AssignStmt:
					for i, l := range n.Lhs {
						if i >= len(n.Rhs) {
							break
						}
						ls, ok1 := l.(*ast.SelectorExpr)
						ri, ok2 := n.Rhs[i].(*ast.Ident)
						if ok1 && ok2 && p.funcByName(ri.Name, "") != nil {
							w.alias[ri.Name] = append(w.alias[ri.Name], ls.Sel.Name)
						}
					}
				}
				return true
			})
		}
	}
	// the ltx module, version from go.mod
	gomod, err := os.ReadFile(filepath.Join(repo, "go.mod"))
	if err != nil {
		die("cannot read go.mod: %v", err)
	}
	ver := ""
	for _, line := range strings.Split(string(gomod), "\n") {
		f := strings.Fields(line)
		for i := range f {
			if f[i] == "github.com/superfly/ltx" && i+1 < len(f) && strings.HasPrefix(f[i+1], "v") {
				ver = f[i+1]
			}
		}
	}
	if ver == "" {
		die("github.com/superfly/ltx not found in go.mod")
	}
	modcache := os.Getenv("GOMODCACHE")
	if modcache == "" {
		gp := os.Getenv("GOPATH")
		if gp == "" {
			home, _ := os.UserHomeDir()
			gp = filepath.Join(home, "go")
		}
		modcache = filepath.Join(gp, "pkg", "mod")
	}
	ltxdir := filepath.Join(modcache, "github.com", "superfly", "ltx@"+ver)
	if _, err := os.Stat(filepath.Join(repo, "vendor", "github.com", "superfly", "ltx")); err == nil {
		ltxdir = filepath.Join(repo, "vendor", "github.com", "superfly", "ltx")
	}
	w.ltx = loadPkg(ltxdir, "")
	if w.ltx == nil {
		die("cannot load the ltx module at %s", ltxdir)
	}
	w.ltx.rel = "ltx@" + ver
	return w
}

func calleeName(c *ast.CallExpr) string {
	switch f := c.Fun.(type) {
	case *ast.Ident:
		return f.Name
	case *ast.SelectorExpr:
		return f.Sel.Name
	}
	return ""
}

func (p *Pkg) funcByName(name, recv string) *FuncInfo {
	for _, f := range p.funcs {
		if f.decl.Name.Name == name && f.recvType == recv {
			return f
		}
	}
	return nil
}

func (p *Pkg) fileOf(n ast.Node) *ast.File {
	for _, f := range p.files {
		if f.Pos() <= n.Pos() && n.Pos() < f.End() {
			return f
		}
	}
	return nil
}

func site(fi *FuncInfo, n ast.Node) string {
	return fmt.Sprintf("%s:%d", fi.file, fset.Position(n.Pos()).Line)
}

func exprText(e ast.Expr) string {
	switch t := e.(type) {
	case *ast.Ident:
		return t.Name
	case *ast.SelectorExpr:
		return exprText(t.X) + "." + t.Sel.Name
	case *ast.CallExpr:
		var a []string
		for _, x := range t.Args {
			a = append(a, exprText(x))
		}
		return exprText(t.Fun) + "(" + strings.Join(a, ",") + ")"
	case *ast.BasicLit:
		return t.Value
	case *ast.BinaryExpr:
		return exprText(t.X) + t.Op.String() + exprText(t.Y)
	case *ast.ParenExpr:
		return "(" + exprText(t.X) + ")"
	case *ast.StarExpr:
		return "*" + exprText(t.X)
	case *ast.UnaryExpr:
		return t.Op.String() + exprText(t.X)
	case *ast.IndexExpr:
		return exprText(t.X) + "[" + exprText(t.Index) + "]"
	}
	return fmt.Sprintf("<%T>", e)
}

// ---- identifiers inside a function --------------------------------------------

// paramIndex returns the position of name among fn's parameters, or -1.
func paramIndex(fi *FuncInfo, name string) int {
	i := 0
	for _, f := range fi.decl.Type.Params.List {
		if len(f.Names) == 0 {
			i++
			continue
		}
		for _, n := range f.Names {
			if n.Name == name {
				return i
			}
			i++
		}
	}
	return -1
}

func paramType(fi *FuncInfo, name string) ast.Expr {
	for _, f := range fi.decl.Type.Params.List {
		for _, n := range f.Names {
			if n.Name == name {
				return f.Type
			}
		}
	}
	return nil
}

func nparams(fi *FuncInfo) (n int, variadic bool) {
	for _, f := range fi.decl.Type.Params.List {
		k := len(f.Names)
		if k == 0 {
			k = 1
		}
		n += k
		if _, ok := f.Type.(*ast.Ellipsis); ok {
			variadic = true
		}
	}
	return
}

// localAssignments: every right-hand side assigned to the local `name` inside fn
// (flow-insensitive, closures included). ok=false when some assignment cannot be
// attributed to a single expression (multi-value call on a later position, range, ...).
func localAssignments(fi *FuncInfo, name string) (rhs []ast.Expr, declared bool, ok bool) {
	ok = true
	if fi.decl.Body == nil {
		return
	}
	ast.Inspect(fi.decl.Body, func(n ast.Node) bool {
		switch n := n.(type) {
		case *ast.AssignStmt:
			for i, l := range n.Lhs {
				id, isId := l.(*ast.Ident)
				if !isId || id.Name != name {
					continue
				}
				declared = true
				if len(n.Lhs) == len(n.Rhs) {
					rhs = append(rhs, n.Rhs[i])
				} else if len(n.Rhs) == 1 && i == 0 {
					rhs = append(rhs, n.Rhs[0]) // v, err := f(...)
				} else {
					ok = false
				}
			}
		case *ast.ValueSpec:
			for i, id := range n.Names {
				if id.Name != name {
					continue
				}
				declared = true
				if i < len(n.Values) {
					rhs = append(rhs, n.Values[i])
				}
			}
		case *ast.RangeStmt:
			for _, l := range []ast.Expr{n.Key, n.Value} {
				if id, isId := l.(*ast.Ident); isId && id.Name == name {
					declared = true
					ok = false
				}
			}
		}
		return true
	})
	return
}

// callersOf: the call sites in the world whose callee name matches fn (or a
// function-valued field that was assigned fn) and whose shape fits.
func (w *World) callersOf(fi *FuncInfo) []*callSite {
	names := append([]string{fi.decl.Name.Name}, w.alias[fi.decl.Name.Name]...)
	np, variadic := nparams(fi)
	var out []*callSite
	for k, nm := range names {
		for _, cs := range w.calls[nm] {
			if !variadic && len(cs.call.Args) != np {
				continue
			}
			if k == 0 {
				_, isSel := cs.call.Fun.(*ast.SelectorExpr)
				if fi.recvType != "" && !isSel {
					continue
				}
				if fi.recvType == "" {
					if id, isId := cs.call.Fun.(*ast.Ident); isId {
						if cs.fn.pkg != fi.pkg || id.Name != nm {
							continue
						}
					} else if sel, isSel := cs.call.Fun.(*ast.SelectorExpr); isSel {
						// pkg.F(...) from another package
						x, isId := sel.X.(*ast.Ident)
						if !isId || cs.fn.pkg == fi.pkg {
							continue
						}
						f := cs.fn.pkg.fileOf(cs.call)
						path := ""
						if f != nil {
							path = cs.fn.pkg.imports[f][x.Name]
						}
						if !strings.HasSuffix(path, "/"+fi.pkg.rel) && !(fi.pkg.rel == "" && strings.HasSuffix(path, "/litestream")) {
							continue
						}
					}
				}
			}
			out = append(out, cs)
		}
	}
	return out
}

// exprTypeName: the (syntactic) named type of an identifier: receiver or parameter.
func exprTypeName(e ast.Expr, fi *FuncInfo) string {
	id, ok := e.(*ast.Ident)
	if !ok {
		return "?"
	}
	if fi.recvName != "" && id.Name == fi.recvName {
		return fi.recvType
	}
	if t := paramType(fi, id.Name); t != nil {
		return baseType(t)
	}
	if id.Name == "db" {
		return "DB"
	}
	return "?"
}
