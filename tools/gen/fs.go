package main

import (
	"go/ast"
	"go/token"
	"sort"
	"strconv"
	"strings"
)

// classifyPath: the syntactic class(es) of a path expression.
//
//	db.path | db.WALPath() | ltx | output | meta | createtemp | tmp(C) | sfx(C,"-wal") |
//	field(T.f) | param(name) | other(text)
func classifyPath(w *World, e ast.Expr, fi *FuncInfo, depth int, seen map[string]bool) []string {
	if depth > 8 {
		return []string{"other(" + exprText(e) + ")"}
	}
	switch t := e.(type) {
	case *ast.ParenExpr:
		return classifyPath(w, t.X, fi, depth, seen)
	case *ast.BinaryExpr:
		if t.Op == token.ADD {
			if lit, ok := t.Y.(*ast.BasicLit); ok && lit.Kind == token.STRING {
				s, _ := strconv.Unquote(lit.Value)
				var out []string
				for _, c := range classifyPath(w, t.X, fi, depth, seen) {
					if s == ".tmp" {
						out = append(out, "tmp("+c+")")
					} else {
						out = append(out, "sfx("+c+","+s+")")
					}
				}
				return uniq(out)
			}
		}
		return []string{"other(" + exprText(e) + ")"}
	case *ast.SelectorExpr:
		name := t.Sel.Name
		if strings.Contains(strings.ToLower(name), "outputpath") {
			return []string{"output"}
		}
		typ := "?"
		if id, ok := t.X.(*ast.Ident); ok {
			typ = exprTypeName(id, fi)
			if _, declared, _ := localAssignments(fi, id.Name); declared && id.Name != fi.recvName && paramIndex(fi, id.Name) < 0 {
				if id.Name == "db" {
					typ = "DB" // conservative: an unknown local called db
				} else {
					typ = "?"
				}
			}
		}
		if name == "path" && (typ == "DB" || typ == "?") {
			return []string{"db.path"}
		}
		return []string{"field(" + typ + "." + name + ")"}
	case *ast.CallExpr:
		if sel, ok := t.Fun.(*ast.SelectorExpr); ok {
			typ := exprTypeName(sel.X, fi)
			switch sel.Sel.Name {
			case "WALPath":
				return []string{"db.WALPath()"}
			case "Path":
				if typ == "DB" || typ == "?" {
					return []string{"db.path"}
				}
			case "LTXPath", "LTXDir", "LTXLevelDir", "LTXFilePath":
				return []string{"ltx"}
			case "metaPath", "MetaPath":
				return []string{"meta"}
			case "Name":
				// f.Name() of a file made by os.CreateTemp
				if id, ok := sel.X.(*ast.Ident); ok {
					if rhs, declared, ok := localAssignments(fi, id.Name); declared && ok {
						for _, r := range rhs {
							if c, ok := r.(*ast.CallExpr); ok && exprText(c.Fun) == "os.CreateTemp" {
								return []string{"createtemp"}
							}
						}
					}
				}
			}
		}
		return []string{"other(" + exprText(e) + ")"}
	case *ast.Ident:
		if i := paramIndex(fi, t.Name); i >= 0 {
			key := fi.qual() + "#" + t.Name
			var out []string
			if !seen[key] {
				seen[key] = true
				for _, cs := range w.callersOf(fi) {
					if i < len(cs.call.Args) {
						out = append(out, classifyPath(w, cs.call.Args[i], cs.fn, depth+1, seen)...)
					}
				}
				delete(seen, key)
			}
			if len(out) == 0 || ast.IsExported(fi.decl.Name.Name) {
				if strings.Contains(strings.ToLower(t.Name), "outputpath") {
					out = append(out, "output")
				} else {
					out = append(out, "param("+t.Name+")")
				}
			}
			return uniq(out)
		}
		if rhs, declared, ok := localAssignments(fi, t.Name); declared {
			if !ok || len(rhs) == 0 {
				return []string{"other(" + t.Name + ")"}
			}
			var out []string
			for _, r := range rhs {
				out = append(out, classifyPath(w, r, fi, depth+1, seen)...)
			}
			return uniq(out)
		}
		if strings.Contains(strings.ToLower(t.Name), "outputpath") {
			return []string{"output"}
		}
		return []string{"other(" + t.Name + ")"}
	}
	return []string{"other(" + exprText(e) + ")"}
}

type fsRec struct {
	fn, site, op, class string
	flags               []string
	peer                string
}

var osOps = map[string]bool{"Open": true, "OpenFile": true, "Create": true, "Rename": true, "Remove": true, "RemoveAll": true,
	"Truncate": true, "Chtimes": true, "WriteFile": true}

// flagNames: the os.O_* names in a flag expression; anything else -> "dynamic".
func flagNames(e ast.Expr, fi *FuncInfo) []string {
	switch t := e.(type) {
	case *ast.ParenExpr:
		return flagNames(t.X, fi)
	case *ast.BinaryExpr:
		if t.Op == token.OR {
			return append(flagNames(t.X, fi), flagNames(t.Y, fi)...)
		}
	case *ast.SelectorExpr:
		if x, ok := t.X.(*ast.Ident); ok && (x.Name == "os" || x.Name == "syscall") && strings.HasPrefix(t.Sel.Name, "O_") {
			return []string{t.Sel.Name}
		}
	case *ast.BasicLit:
		if t.Value == "0" {
			return []string{"O_RDONLY"}
		}
	}
	return []string{"dynamic"}
}

type wrapper struct {
	fi      *FuncInfo
	op      string
	pathIdx int
	flagIdx int      // -1: fixed flags
	flags   []string // when fixed
}

func collectFsSites(w *World) []fsRec {
	scan := []string{"", "file", "internal"}
	var out []fsRec
	var wrappers []wrapper
	// pass 1: direct os.* sites; find wrappers (path argument is a bare parameter)
	for _, rel := range scan {
		p := w.pkgs[rel]
		if p == nil {
			die("package %q not found under the repo", rel)
		}
		for _, fi := range p.funcs {
			if fi.decl.Body == nil {
				continue
			}
			fi := fi
			ast.Inspect(fi.decl.Body, func(n ast.Node) bool {
				call, ok := n.(*ast.CallExpr)
				if !ok {
					return true
				}
				sel, ok := call.Fun.(*ast.SelectorExpr)
				if !ok {
					return true
				}
				x, ok := sel.X.(*ast.Ident)
				if !ok || x.Name != "os" || !osOps[sel.Sel.Name] || len(call.Args) == 0 {
					return true
				}
				op := sel.Sel.Name
				var flags []string
				if op == "OpenFile" && len(call.Args) >= 2 {
					flags = uniq(flagNames(call.Args[1], fi))
					if fid, ok := call.Args[1].(*ast.Ident); ok && paramIndex(fi, fid.Name) >= 0 {
						// the flags are the caller's: checked at every call of this wrapper (pass 2)
						flags = []string{"forwarded"}
					}
				}
				if op == "Rename" && len(call.Args) == 2 {
					src := classifyPath(w, call.Args[0], fi, 0, map[string]bool{})
					dst := classifyPath(w, call.Args[1], fi, 0, map[string]bool{})
					for _, s := range src {
						for _, d := range dst {
							out = append(out, fsRec{fn: fi.qual(), site: site(fi, call), op: "Rename.src", class: s, peer: d})
							out = append(out, fsRec{fn: fi.qual(), site: site(fi, call), op: "Rename.dst", class: d, peer: s})
						}
					}
					return true
				}
				for _, c := range classifyPath(w, call.Args[0], fi, 0, map[string]bool{}) {
					out = append(out, fsRec{fn: fi.qual(), site: site(fi, call), op: op, class: c, flags: flags})
				}
				if id, ok := call.Args[0].(*ast.Ident); ok {
					if pi := paramIndex(fi, id.Name); pi >= 0 {
						wr := wrapper{fi: fi, op: op, pathIdx: pi, flagIdx: -1, flags: flags}
						if op == "OpenFile" && len(call.Args) >= 2 {
							if fid, ok := call.Args[1].(*ast.Ident); ok {
								if fx := paramIndex(fi, fid.Name); fx >= 0 {
									wr.flagIdx = fx
								}
							}
						}
						wrappers = append(wrappers, wr)
					}
				}
				return true
			})
		}
	}
	// pass 2: call sites of wrappers whose flags are passed by the caller carry the
	// flags at the call (the path class already flowed through the parameter above)
	for _, wr := range wrappers {
		if wr.flagIdx < 0 {
			continue
		}
		for _, cs := range w.callersOf(wr.fi) {
			if wr.flagIdx >= len(cs.call.Args) || wr.pathIdx >= len(cs.call.Args) {
				continue
			}
			flags := uniq(flagNames(cs.call.Args[wr.flagIdx], cs.fn))
			for _, c := range classifyPath(w, cs.call.Args[wr.pathIdx], cs.fn, 0, map[string]bool{}) {
				out = append(out, fsRec{fn: cs.fn.qual(), site: site(cs.fn, cs.call), op: wr.op + "@" + wr.fi.decl.Name.Name, class: c, flags: flags})
			}
		}
	}
	sort.SliceStable(out, func(i, j int) bool {
		if out[i].site != out[j].site {
			fi, li := splitSite(out[i].site)
			fj, lj := splitSite(out[j].site)
			if fi != fj {
				return fi < fj
			}
			return li < lj
		}
		if out[i].op != out[j].op {
			return out[i].op < out[j].op
		}
		return out[i].class < out[j].class
	})
	return out
}

func splitSite(s string) (string, int) {
	i := strings.LastIndex(s, ":")
	n, _ := strconv.Atoi(s[i+1:])
	return s[:i], n
}
