module verifgen

go 1.23
