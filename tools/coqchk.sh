#!/bin/sh
# independent re-check of every compiled property file with coqchk; prints the axioms each depends on
cd "$(dirname "$0")/.." || exit 1
python3 - <<'PY'
import sys
sys.path.insert(0, '.')
from lib import common as C
ok, log = C.run_gen(); print('gen', ok)
ok, log = C.coq_build(); print('full build', ok, C.failed_files(log))
PY
cd coq || exit 1
for f in Properties/C*.vo Properties/GenAgree*.vo; do
  m=$(echo $f | sed 's/\.vo$//; s/\//./g')
  echo "== $m"
  timeout 3600 coqchk -silent -o -Q . LS LS.$m 2>&1 | tail -8
done
