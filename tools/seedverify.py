#!/usr/bin/env python3
"""tools/seedverify.py <seed_out dir> <ID> [<name>]
Confirm a seeded change independently in a fresh scratch worktree of /repo:
demo passes without the patch, patch applies and builds, demo fails with it,
the existing tests of the touched packages (+ root) still pass (known sandbox
failures excepted). On success copies patch/demo/meta into /verif/seeded/<name>/."""
import json, os, shutil, subprocess, sys, tempfile, re
src, pid = sys.argv[1], sys.argv[2]
name = sys.argv[3] if len(sys.argv) > 3 else pid
meta = json.load(open(os.path.join(src, "meta.json")))
base = tempfile.mkdtemp(prefix="seedv", dir="/root/scratch")
wt = os.path.join(base, "repo")
env = dict(os.environ, GOFLAGS="-mod=mod", GOPROXY="off")
env.pop("AWS_CA_BUNDLE", None)
def sh(cmd, cwd=wt, timeout=1800):
    p = subprocess.run(cmd, shell=True, cwd=cwd, env=env, stdout=subprocess.PIPE, stderr=subprocess.STDOUT, timeout=timeout)
    return p.returncode, p.stdout.decode("utf-8", "replace")
res = {}
try:
    subprocess.run("git -C /repo worktree add -q --detach %s HEAD" % wt, shell=True, check=True)
    shutil.copytree(src, os.path.join(wt, "seed_out"))
    demo = meta["demo_cmd"]
    demo = re.sub(r"export GOFLAGS=\S+ GOPROXY=\S+;?\s*", "", demo)
    rc0, out0 = sh(demo)
    res["demo_without_patch_rc"] = rc0
    sh("git checkout -q -- . ; git clean -fdq -e seed_out")
    rc, out = sh("git apply seed_out/patch.diff")
    res["patch_applies"] = rc == 0
    rc, out = sh("go build ./... ")
    res["builds"] = rc == 0
    rc1, out1 = sh(demo)
    res["demo_with_patch_rc"] = rc1
    res["demo_with_patch_tail"] = out1[-600:]
    sh("git clean -fdq -e seed_out; rm -f *_demo_test.go s3/demo_test.go")
    pk = sorted({("./" + os.path.dirname(f) + "/...") if os.path.dirname(f) else "." for f in meta.get("files", [])} | {"."})
    rc2, out2 = sh("go test -vet=off -count=1 -timeout 25m " + " ".join(pk))
    fails = sorted(set(re.findall(r"^--- FAIL: (\S+)", out2, re.M)))
    res["existing_tests_cmd"] = "go test -vet=off -count=1 " + " ".join(pk)
    res["existing_tests_failures"] = fails
    ok_fail = [f for f in fails if f != "TestReplica_UploadLTXFile_OpenErrorReturnsLTXError"]
    # timing-sensitive tests flake when the machine is loaded: a test that passes when re-run alone
    # on the patched tree is not a failure caused by the patch
    still = []
    for f in ok_fail:
        passed = False
        for _ in range(3):
            rcx, outx = sh("go test -vet=off -count=1 -run '^%s$' %s" % (f, " ".join(pk)))
            if rcx == 0:
                passed = True
                break
        if not passed:
            still.append(f)
    res["flaky_when_rerun_alone"] = [f for f in ok_fail if f not in still]
    # a test that also fails alone on the CLEAN tree (patch reverted) under the current machine load
    # is not a failure caused by the patch (TestDB_DelayedCheckpointAfterWrite under load)
    if still:
        sh("git apply -R seed_out/patch.diff")
        clean_fail = []
        for f in still:
            rcx, outx = sh("go test -vet=off -count=1 -run '^%s$' %s" % (f, " ".join(pk)))
            if rcx != 0:
                clean_fail.append(f)
        sh("git apply seed_out/patch.diff")
        res["fails_on_clean_tree_too"] = clean_fail
        still = [f for f in still if f not in clean_fail]
    ok_fail = still
    res["confirmed"] = bool(rc0 == 0 and res["patch_applies"] and res["builds"] and rc1 != 0 and not ok_fail)
finally:
    subprocess.run("git -C /repo worktree remove --force %s" % wt, shell=True)
    shutil.rmtree(base, ignore_errors=True)
print(json.dumps(res, indent=1))
if res.get("confirmed"):
    dst = os.path.join("/verif/seeded", name)
    os.makedirs(dst, exist_ok=True)
    for f in os.listdir(src):
        if os.path.isdir(os.path.join(src, f)):
            shutil.copytree(os.path.join(src, f), os.path.join(dst, f), dirs_exist_ok=True)
        else:
            shutil.copy(os.path.join(src, f), dst)
    meta["breaks_property"] = pid
    meta["confirmed_by"] = res
    json.dump(meta, open(os.path.join(dst, "meta.json"), "w"), indent=1)
    print("KEPT", dst)
