#!/bin/sh
# tools/seedproc.sh <wave dir, e.g. /tmp/seed4> <ID> <name, e.g. C05c> <check IDs...>
# copy the agent's seed_out out of its worktree, drop the worktree, confirm the seed
# (tools/seedverify.py) and run the named checks against it (tools/mutest.py)
cd "$(dirname "$0")/.."
wave=$1; id=$2; name=$3; shift 3
dst=/root/scratch/seedw_$name
rm -rf $dst; cp -r $wave/$id/seed_out $dst || exit 2
git -C /repo worktree remove --force $wave/$id 2>/dev/null
(python3 tools/seedverify.py $dst $id $name > work/seedverify_$name.out 2>&1 &)
python3 tools/mutest.py $dst/patch.diff "$@" > work/seedmut_$name.out 2>&1
grep -v "KNOWN\|WARNING" work/seedmut_$name.out | cut -c1-420 | tail -n 9
sleep 2; grep -E '"confirmed"|KEPT' work/seedverify_$name.out
