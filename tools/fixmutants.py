#!/usr/bin/env python3
"""tools/fixmutants.py [commit ...]
Regression of the repairs: for every "fix:" commit of /repo, take its reverse as a
mutant (in a scratch worktree, through tools/mutest.py — /repo itself is never
touched), run the check of the property it belongs to and record whether the
violation "returns". Writes seeded/fixes.json (what ran, exit code, signatures).
A fix whose reverse no longer applies on its own (a later fix edits the same
lines) is reversed together with the later one."""
import json, os, subprocess, sys, tempfile

FIXES = [  # (commit, property, also-reverse-first)
    ("b0f06c5", "C11", []), ("acbcc3c", "C04", []), ("b94d375", "C04", []), ("beb697d", "C01", []),
    ("4392ef7", "C12", []), ("842e1af", "C19", []), ("bb88a29", "C01", []), ("6edd82b", "C01", ["bb88a29"]),
    ("80a5b27", "C01", ["bb88a29", "6edd82b"]),
    ("67a6f3f", "C01", []), ("c55c7c6", "C01", []), ("a637c7e", "C02", []), ("482a715", "C02", []),
    ("5f481c7", "C12", ["a637c7e"]),
    ("0ec96d8", "C16", []), ("22eeea8", "C16", []), ("086c0cc", "C05", []), ("3b58009", "C04", []),
    ("a1345df", "C01", []), ("20b75a5", "C01", []), ("a3c8cc9", "C04", []),
]
VERIF = os.path.dirname(os.path.dirname(os.path.abspath(__file__)))
only = sys.argv[1:]
out = {}
for commit, pid, first in FIXES:
    if only and commit not in only:
        continue
    # reverse patch = diff from the commit to its parent, later fixes reversed first
    patch = ""
    for c in first + [commit]:
        patch += subprocess.check_output(["git", "-C", "/repo", "diff", c, c + "^", "--", "."]).decode()
    with tempfile.NamedTemporaryFile("w", suffix=".diff", delete=False, dir="/root/scratch" if os.path.isdir("/root/scratch") else None) as f:
        f.write(patch)
    r = subprocess.run([sys.executable, os.path.join(VERIF, "tools", "mutest.py"), f.name, pid], stdout=subprocess.PIPE, stderr=subprocess.STDOUT)
    os.unlink(f.name)
    text = r.stdout.decode()
    rc = None
    sigs = []
    for line in text.split("\n"):
        if line.startswith("== "):
            rc = int(line.split("rc=")[1])
        if "signature:" in line:
            sigs.append(line.split("signature:")[1].split("|")[0].strip())
    if os.path.exists(os.path.join(VERIF, "seeded", "fixes.json")) and not out:
        out = json.load(open(os.path.join(VERIF, "seeded", "fixes.json")))
    out[commit] = {"property": pid, "reversed_with": first, "check_exit": rc, "caught": rc == 1,
                   "signatures": sorted(set(sigs)), "applies": "PATCH DOES NOT APPLY" not in text}
    print(commit, pid, "rc=%s" % rc, sorted(set(sigs))[:4], flush=True)
    json.dump(out, open(os.path.join(VERIF, "seeded", "fixes.json"), "w"), indent=1)
