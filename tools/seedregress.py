#!/usr/bin/env python3
"""tools/seedregress.py [-j N] [seed ...]
Regression over the kept seeded changes: apply each /verif/seeded/<name>/patch.diff in a
scratch worktree (tools/mutest.py; /repo is never touched) and run the check of its
property plus every check named in its detection notes. Writes seeded/regress.json:
per seed, per check: exit code and signatures. A seed counts as caught when at least
one of those checks exits 1."""
import json, os, re, subprocess, sys
from concurrent.futures import ThreadPoolExecutor

VERIF = os.path.dirname(os.path.dirname(os.path.abspath(__file__)))
args = sys.argv[1:]
jobs = 3
if args[:1] == ["-j"]:
    jobs = int(args[1]); args = args[2:]
seeds = sorted(d for d in os.listdir(os.path.join(VERIF, "seeded")) if os.path.isdir(os.path.join(VERIF, "seeded", d)))
if args:
    seeds = [s for s in seeds if s in args]


def checks_of(name):
    ids = [re.match(r"C\d\d", name).group(0)]
    try:
        det = json.load(open(os.path.join(VERIF, "seeded", name, "meta.json"))).get("detection", {})
        for k, v in det.items():
            for c in re.findall(r"C\d\d", k):
                if c not in ids and "caught" in str(v):
                    ids.append(c)
    except Exception:
        pass
    return ids


def run(name):
    ids = checks_of(name)
    r = subprocess.run([sys.executable, os.path.join(VERIF, "tools", "mutest.py"),
                        os.path.join(VERIF, "seeded", name, "patch.diff")] + ids, stdout=subprocess.PIPE, stderr=subprocess.STDOUT)
    res, cur = {}, None
    for line in r.stdout.decode().split("\n"):
        if line.startswith("== "):
            cur = line.split()[1]
            res[cur] = {"exit": int(line.split("rc=")[1]), "signatures": []}
        elif "signature:" in line and cur:
            res[cur]["signatures"].append(line.split("signature:")[1].split("|")[0].strip())
        elif "PATCH DOES NOT APPLY" in line:
            res["_patch"] = "does not apply to the current /repo HEAD"
    caught = any(isinstance(v, dict) and v.get("exit") == 1 for v in res.values())
    print(name, "caught" if caught else "NOT CAUGHT", {k: (v["exit"] if isinstance(v, dict) else v) for k, v in res.items()}, flush=True)
    return name, {"caught": caught, "checks": res}


out = {}
path = os.path.join(VERIF, "seeded", "regress.json")
if os.path.exists(path) and args:
    out = json.load(open(path))
with ThreadPoolExecutor(max_workers=jobs) as ex:
    for name, r in ex.map(run, seeds):
        out[name] = r
        json.dump(out, open(path, "w"), indent=1, sort_keys=True)
