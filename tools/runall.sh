#!/bin/sh
# tools/runall.sh [tier] [ids...] : run checks 4 at a time, print one summary line each
cd "$(dirname "$0")/.."
tier=${1:-quick}; shift
ids=${@:-C01 C02 C03 C04 C05 C06 C07 C08 C09 C10 C11 C12 C13 C14 C15 C16 C17 C18 C19 C20}
mkdir -p work/runall
echo $ids | tr ' ' '\n' | xargs -P 4 -I{} sh -c './check {} --tier '$tier' > work/runall/{}.out 2>&1; echo "{} rc=$? known=$(grep -c "^KNOWN" work/runall/{}.out) viol=$(grep -c "^VIOLATION" work/runall/{}.out) wall=$(python3 -c "import json;print(json.load(open(\"evidence/{}.json\"))[\"wall_s\"])")"'
